//! engine `hasher flm` — soundness of `FindLongestMatch` (supports property C01: "match finders only
//! emit distances <= min(position, 2^lgwin-16) or static-dictionary references").
//!
//! Search stage (real code only).  For every bucketed index kind (`BasicHasher` H2/H3/H4/H54,
//! `AdvHasher` H5/H5q5/H5q7/H6, `H9`; the kinds `HasherSetup` selects + small-table instances) a ring
//! buffer view of a generated stream is built exactly as the encoder keeps it (`data[p & mask] =
//! stream[p]` for the last ring-size positions written, tail mirroring the head, 7 slack bytes), the
//! table is brought into one of three states — natural (`StoreRange` over earlier positions, valid or
//! stale), poisoned (the probed bucket overwritten with adversarial positions: the position itself,
//! future / wrapped / out-of-window positions, 0, u32::MAX) or fully random (small tables) — and
//! `FindLongestMatch` is called at `cur_ix` with a distance cache that is either encoder-reachable
//! (initial 4,11,15,16 / earlier real distances / the catable poison 0x7ffffff0, then
//! `PrepareDistanceCache`) or arbitrary.  Oracle on a `true` result:
//!   * `distance <= max_backward`: `0 < distance`, `2 <= len <= max_length`, and
//!     `data[((cur_ix - distance) & mask) + k] == data[(cur_ix & mask) + k]` for all `k < len`
//!     (and the same on the stream itself);
//!   * `distance > max_backward`: a dictionary was passed, `distance <= max_distance`, and the RFC 7932
//!     reading (word length `len ^ len_x_code`, id = distance - max_backward - 1, index / transform
//!     split by the size-bits table, transform must be OmitLast(cut)) expands to the bytes at `cur_ix`.
//! A panic is a violation when the call is within the encoder's calling conditions
//! (`max_length > HashTypeLength`, buffer shaped as above).
//!
//! Correspondence: request line for the Lean driver
//!   `hasher flm <kind> <mask> <data> <pre-ops…> F <cur_ix> <max_length> <max_backward> <max_distance>
//!        <cache,16 comma separated i32> <in_len> <in_score> <dict|-> <num_last_distances> <literal_byte_score>`
//! (tables start zeroed; pre-ops as in the `hasher` engine plus `P:<table>:<index>:<value>` pokes;
//!  dict = `lookups:matches:` + `-` (no dictionary) or up to 2 looked-up items `item.sizebits.wordhex` joined by `+`)
//! answer: `<0|1> <len> <len_x_code> <distance> <score> <num_digest> <buckets_digest>` | `panic`.
//!
//! Thorough tier only: the 2 GiB end-to-end witness of the cached-distance defect (`e2e_catable_2g`,
//! quality 2, 3, 4 through `CompressorWriter` into a streaming decoder; ~11 s each).
//!
//! non-trivial case: `FindLongestMatch` returned true.
use super::*;
use brotli::enc::backward_references::HasherSearchResult;
use brotli::enc::dictionary_hash::kStaticDictionaryHash;
use brotli::enc::static_dict::{kBrotliEncDictionary, BrotliDictionary};

const POISON: i32 = 0x7ffffff0;

/// per-task context: one hasher instance of the kind (re-zeroed per case) and its constants
pub struct Ctx {
    pub h: UH,
    pub nb: usize,
    pub nn: usize,
    pub num_last: i32,
    pub lbs: u32,
}
impl Ctx {
    pub fn new(kind: &Kind) -> Ctx {
        let mut h = build(&kind.build);
        let nb = bucket_slice(&h).len();
        let nn = num_slice(&h).len();
        let num_last = h.GetHasherCommon().params.num_last_distances_to_check;
        let lbs = h.Opts().literal_byte_score;
        Ctx { h, nb, nn, num_last, lbs }
    }
}

pub fn tables_mut(h: &mut UH) -> (&mut [u16], &mut [u32]) {
    match h {
        UnionHasher::H2(x) => (&mut [], x.buckets_.buckets_.slice_mut()),
        UnionHasher::H3(x) => (&mut [], x.buckets_.buckets_.slice_mut()),
        UnionHasher::H4(x) => (&mut [], x.buckets_.buckets_.slice_mut()),
        UnionHasher::H54(x) => (&mut [], x.buckets_.buckets_.slice_mut()),
        UnionHasher::H5(x) => (x.num.slice_mut(), x.buckets.slice_mut()),
        UnionHasher::H5q5(x) => (x.num.slice_mut(), x.buckets.slice_mut()),
        UnionHasher::H5q7(x) => (x.num.slice_mut(), x.buckets.slice_mut()),
        UnionHasher::H6(x) => (x.num.slice_mut(), x.buckets.slice_mut()),
        UnionHasher::H9(x) => (x.num_.slice_mut(), x.buckets_.slice_mut()),
        _ => (&mut [], &mut []),
    }
}

fn set_common(h: &mut UH, lookups: usize, matches: usize, lbs: i32) {
    let c = h.GetHasherCommon();
    c.dict_num_lookups = lookups;
    c.dict_num_matches = matches;
    let _ = lbs;
}

/// LZ-style stream: literal runs and copies from earlier distances (so that matches exist)
pub fn gen_stream(rng: &mut Rng, n: usize) -> (Vec<u8>, Vec<usize>) {
    let mut v: Vec<u8> = Vec::with_capacity(n);
    let mut dists = vec![];
    let alpha = *rng.pick(&[2u64, 4, 16, 256]);
    while v.len() < n {
        if v.len() > 8 && rng.chance(1, 2) {
            let d = if rng.chance(1, 3) { 1 + rng.below(16) as usize } else { 1 + rng.below(v.len().min(5000) as u64) as usize };
            let d = d.min(v.len());
            let l = 2 + rng.below(40) as usize;
            dists.push(d);
            for _ in 0..l {
                let b = v[v.len() - d];
                v.push(b);
            }
        } else {
            let l = 1 + rng.below(12) as usize;
            for _ in 0..l {
                v.push((rng.below(alpha) as u8).wrapping_mul(37));
            }
        }
    }
    v.truncate(n);
    (v, dists)
}

/// the encoder's ring buffer after `written` bytes of the stream (absolute positions `base + i`),
/// as `RingBufferWrite` really leaves it (w-stream's `RingOK` / `RingViewW`): a position lives at its
/// offset; only WRAPPED positions (absolute position >= ring size) with offset < tail are mirrored
/// behind the ring; first-lap positions are mirrored or not depending on the allocation history
/// (`mirror_first_lap`: not, when they arrived through the small first allocation); the 7 slack
/// bytes behind the tail stay zero.
pub fn ring_view(stream: &[u8], written: usize, lg: u32, tail: usize, base: usize, mirror_first_lap: bool) -> Vec<u8> {
    let size = 1usize << lg;
    let mask = size - 1;
    let mut data = vec![0u8; size + tail + 7];
    let lo = written.saturating_sub(size);
    for p in lo..written {
        data[p & mask] = stream[p];
        if (p & mask) < tail && (base + p >= size || mirror_first_lap) {
            data[size + (p & mask)] = stream[p];
        }
    }
    data
}

const CUTOFF_TRANSFORMS: [usize; 10] = [0, 12, 27, 23, 42, 63, 56, 48, 59, 64]; // RFC 7932 appendix B: Identity, OmitLast1..9

#[derive(Clone, Debug)]
pub struct FlmCase {
    pub mask: usize,
    pub data: Vec<u8>,
    pub pre: Vec<String>, // pre-ops (tokens)
    pub cur_ix: usize,
    pub max_length: usize,
    pub max_backward: usize,
    pub max_distance: usize,
    pub cache: [i32; 16],
    pub in_len: usize,
    pub in_score: u64,
    pub dict: bool,
    pub lookups: usize,
    pub matches: usize,
    pub natural: bool,
    pub cache_class: &'static str,
    pub table_class: &'static str,
}

pub fn apply_pre(h: &mut UH, data: &[u8], mask: usize, pre: &[String]) -> bool {
    catch_unwind(AssertUnwindSafe(|| {
        for t in pre {
            let f: Vec<&str> = t.split(':').collect();
            match f[0] {
                "S" => { for ix in f[1].parse::<usize>().unwrap()..f[2].parse::<usize>().unwrap() { h.Store(data, mask, ix); } }
                "R" => h.StoreRange(data, mask, f[1].parse().unwrap(), f[2].parse().unwrap()),
                "B" => h.BulkStoreRange(data, mask, f[1].parse().unwrap(), f[2].parse().unwrap()),
                "P" => {
                    let (num, buckets) = tables_mut(h);
                    let (i, v): (usize, u64) = (f[2].parse().unwrap(), f[3].parse().unwrap());
                    if f[1] == "n" { if i < num.len() { num[i] = v as u16; } } else if i < buckets.len() { buckets[i] = v as u32; }
                }
                _ => {}
            }
        }
    }))
    .is_ok()
}

fn dict_token(data: &[u8], cur_m: usize, shallow: bool, lookups: usize, matches: usize) -> String {
    // what SearchInStaticDictionary would look up: Hash14 of the 4 bytes at cur, 1 (shallow) or 2 slots
    if cur_m + 4 > data.len() { return format!("{}:{}:", lookups, matches); }
    let w = u32::from_le_bytes([data[cur_m], data[cur_m + 1], data[cur_m + 2], data[cur_m + 3]]);
    let key = ((w.wrapping_mul(0x1e35a7bd) >> 18) << 1) as usize;
    let d = &kBrotliEncDictionary;
    let mut items = vec![];
    for k in 0..(if shallow { 1 } else { 2 }) {
        let item = kStaticDictionaryHash[key + k] as usize;
        let len = item & 0x1f;
        let dist = item >> 5;
        let (bits, word) = if item != 0 && len < 25 {
            let off = d.offsets_by_length[len] as usize + len * dist;
            (d.size_bits_by_length[len] as usize, hex(&d.data[off..(off + len).min(d.data.len())]))
        } else { (0, "-".to_string()) };
        items.push(format!("{}.{}.{}", item, bits, word));
    }
    format!("{}:{}:{}", lookups, matches, items.join("+"))
}

pub fn flm_request(kind: &Kind, ctx: &Ctx, c: &FlmCase) -> Option<String> {
    let spec = kind.spec.as_ref()?;
    let shallow = matches!(kind.family, Family::Basic { .. });
    let use_dict = c.dict && match kind.variant { "H3" | "H54" => false, _ => true };
    // `<lookups>:<matches>:<slots>`; slots `-` = no dictionary passed (or a kind that ignores it)
    let dict = if use_dict { dict_token(&c.data, c.cur_ix & c.mask, shallow, c.lookups, c.matches) } else { format!("{}:{}:-", c.lookups, c.matches) };
    let cache = c.cache.iter().map(|x| x.to_string()).collect::<Vec<_>>().join(",");
    let (num_last, lbs) = (ctx.num_last, ctx.lbs);
    let r = format!(
        "hasher flm {} {} {}{} F {} {} {} {} {} {} {} {} {} {}",
        spec, mask_token(c.mask), hex(&c.data), c.pre.iter().map(|t| format!(" {}", t)).collect::<String>(), c.cur_ix, c.max_length, c.max_backward, c.max_distance, cache, c.in_len, c.in_score, dict, num_last, lbs
    );
    if r.len() < 65000 { Some(r) } else { None }
}

/// run the real code; returns (answer line, panic?, found, out)
pub fn flm_run(_kind: &Kind, ctx: &mut Ctx, c: &FlmCase) -> (String, bool, bool, HasherSearchResult) {
    let h = &mut ctx.h;
    zero_tables(h);
    let mut out = HasherSearchResult { len: c.in_len, len_x_code: 0, distance: 0, score: c.in_score };
    let pre_ok = apply_pre(h, &c.data, c.mask, &c.pre);
    if !pre_ok {
        return ("panic".to_string(), true, false, out);
    }
    set_common(h, c.lookups, c.matches, 0);
    let dict: Option<&BrotliDictionary> = if c.dict { Some(&kBrotliEncDictionary) } else { None };
    let r = catch_unwind(AssertUnwindSafe(|| {
        h.FindLongestMatch(dict, &kStaticDictionaryHash[..], &c.data, c.mask, &c.cache, c.cur_ix, c.max_length, c.max_backward, 0, c.max_distance, &mut out)
    }));
    match r {
        Err(_) => ("panic".to_string(), true, false, out),
        Ok(found) => {
            let (dn, _) = digest_u16(num_slice(h));
            let (db, _) = digest_u32(bucket_slice(h));
            let cm = h.GetHasherCommon();
            let ans = format!("{} {} {} {} {} {} {} {} {}", found as u8, out.len, out.len_x_code, out.distance, out.score, dn, db, cm.dict_num_lookups, cm.dict_num_matches);
            (ans, false, found, out)
        }
    }
}

/// the soundness oracle; returns a violation (signature suffix, text) if any
fn judge(kind: &Kind, c: &FlmCase, stream: Option<(&[u8], usize)>, found: bool, out: &HasherSearchResult) -> Option<(String, String)> {
    if !found { return None; }
    let cur_m = c.cur_ix & c.mask;
    let fam = match kind.family { Family::Basic { .. } => "basic", Family::Adv4 | Family::Adv8 => "adv", _ => "h9" };
    // the distance-cache entry taken without a window check (BasicHasher tries cache[0] first)
    if !c.dict && out.distance > c.max_backward && out.len_x_code == 0 && c.cache[..4].iter().any(|&d| d as usize == out.distance) {
        return Some((format!("distance-beyond-max-backward:{}:{}", fam, c.cache_class), format!("distance {} > max_backward {}: the distance-cache entry was accepted without a window check (len {})", out.distance, c.max_backward, out.len)));
    }
    if out.distance <= c.max_backward {
        if out.distance == 0 { return Some(("distance-zero".into(), format!("distance 0, len {}", out.len))); }
        if out.len > c.max_length { return Some(("len-beyond-max-length".into(), format!("len {} > max_length {}", out.len, c.max_length))); }
        if out.len < 2 && c.max_length >= 4 { return Some(("len-below-2".into(), format!("len {}", out.len))); }
        if out.len_x_code != 0 { return Some(("len-x-code-on-copy".into(), format!("len_x_code {}", out.len_x_code))); }
        let prev_m = c.cur_ix.wrapping_sub(out.distance) & c.mask;
        for k in 0..out.len {
            if prev_m + k >= c.data.len() || cur_m + k >= c.data.len() || c.data[prev_m + k] != c.data[cur_m + k] {
                return Some(("bytes-differ".into(), format!("distance {} len {}: byte {} differs in the ring buffer", out.distance, out.len, k)));
            }
        }
        if let Some((s, base)) = stream {
            let cur = c.cur_ix - base;
            // the ring still holds the earlier position only while it is less than a ring size behind the write head
            if out.distance <= cur && s.len() - (cur - out.distance) <= c.mask + 1 {
                for k in 0..out.len {
                    if cur + k >= s.len() || s[cur - out.distance + k] != s[cur + k] {
                        return Some(("stream-bytes-differ".into(), format!("distance {} len {}: byte {} differs in the stream", out.distance, out.len, k)));
                    }
                }
            }
        }
        None
    } else {
        if !c.dict {
            let fam = match kind.family { Family::Basic { .. } => "basic", Family::Adv4 | Family::Adv8 => "adv", _ => "h9" };
            return Some((format!("distance-beyond-max-backward:{}:{}", fam, c.cache_class), format!("distance {} > max_backward {} without a dictionary (cache[0] = {})", out.distance, c.max_backward, c.cache[0])));
        }
        // dictionary reference (could still be a non-dictionary distance beyond max_backward)
        if out.distance > c.max_distance { return Some(("dict-distance-beyond-max-distance".into(), format!("distance {} > max_distance {}", out.distance, c.max_distance))); }
        let wlen = out.len ^ out.len_x_code;
        if !(4..=24).contains(&wlen) || out.len > wlen || out.len == 0 || out.len > c.max_length || wlen > c.max_length {
            let fam = match kind.family { Family::Basic { .. } => "basic", Family::Adv4 | Family::Adv8 => "adv", _ => "h9" };
            return Some((format!("not-a-dictionary-reference:{}:{}", fam, c.cache_class), format!("distance {} > max_backward {} but len {} len_x_code {} is no dictionary word (cache[0] = {})", out.distance, c.max_backward, out.len, out.len_x_code, c.cache[0])));
        }
        let d = &kBrotliEncDictionary;
        let id = out.distance - c.max_backward - 1;
        let bits = d.size_bits_by_length[wlen] as usize;
        let (idx, tid) = (id & ((1 << bits) - 1), id >> bits);
        let cut = wlen - out.len;
        if cut >= 10 || CUTOFF_TRANSFORMS[cut] != tid {
            let fam = match kind.family { Family::Basic { .. } => "basic", Family::Adv4 | Family::Adv8 => "adv", _ => "h9" };
            return Some((format!("not-a-dictionary-reference:{}:{}", fam, c.cache_class), format!("transform {} is not OmitLast{} (distance {}, cache[0] = {})", tid, cut, out.distance, c.cache[0])));
        }
        let off = d.offsets_by_length[wlen] as usize + wlen * idx;
        for k in 0..out.len {
            if d.data[off + k] != c.data[cur_m + k] {
                return Some(("dict-bytes-differ".into(), format!("word len {} idx {} cut {}: byte {} differs", wlen, idx, cut, k)));
            }
        }
        None
    }
}

fn case_json(kind: &Kind, ctx: &Ctx, c: &FlmCase, seed: u64) -> String {
    format!(
        "{{\"kind\": {}, \"build\": {}, \"request\": {}, \"natural\": {}, \"cache_class\": {}, \"table_class\": {}, \"seed\": {}}}",
        jstr(kind.variant), jstr(&format!("{:?}", kind.build)),
        jstr(&flm_request(kind, ctx, c).map(|r| if r.len() > 6000 { format!("{}...({} chars)", &r[..6000], r.len()) } else { r }).unwrap_or_else(|| format!("(too long) cur_ix {} max_length {} max_backward {} cache {:?}", c.cur_ix, c.max_length, c.max_backward, c.cache))),
        c.natural, jstr(c.cache_class), jstr(c.table_class), seed
    )
}

fn hash_type_len(kind: &Kind) -> usize {
    match kind.family { Family::Basic { .. } | Family::Adv8 => 8, _ => 4 }
}

fn gen_case(kind: &Kind, ctx: &Ctx, rng: &mut Rng, small_table: bool) -> (FlmCase, Vec<u8>, usize) {
    // ring geometry
    let lg = *rng.pick(&[8u32, 9, 10, 11, 12]);
    let size = 1usize << lg;
    let mask = size - 1;
    let tail = (*rng.pick(&[64usize, 128, 256])).min(size);
    let lgwin_window = size / 2; // 2^lgwin; ring = 2 * window
    let wraps = rng.below(4) as usize;
    let n = size * wraps + 64 + rng.below(size as u64) as usize;
    let (stream, dists) = gen_stream(rng, n);
    // absolute positions: base is a multiple of the ring size
    let high = rng.chance(1, 4);
    let base: usize = if high { *rng.pick(&[1usize << 31, (1usize << 31) + (1 << 30), 0x8000_0000 - (1 << 16)]) } else { 0 };
    let base = base & !mask;
    let written = n;
    let mut stream = stream;
    let mirror_first_lap = rng.chance(1, 2);
    let mut data = ring_view(&stream, written, lg, tail, base, mirror_first_lap);
    let htl = hash_type_len(kind);
    // current position
    let natural_len = rng.chance(7, 8);
    let room = if natural_len { htl + 1 } else { 1 };
    let cur_local = if written > room + 1 { written - room - rng.below(((written - room).min(tail)) as u64) as usize } else { 0 };
    let cur_local = cur_local.min(written.saturating_sub(room));
    let cur_ix = base + cur_local;
    // dictionary cases: half of them get (a prefix of) a real dictionary word at the current position
    let dict = rng.chance(1, 3);
    if dict && rng.chance(1, 2) {
        let d = &kBrotliEncDictionary;
        let wlen = rng.range(4, 24) as usize;
        let nwords = 1usize << d.size_bits_by_length[wlen];
        let idx = rng.below(nwords as u64) as usize;
        let off = d.offsets_by_length[wlen] as usize + wlen * idx;
        let keep = wlen - (rng.below(4) as usize).min(wlen - 4);
        for k in 0..keep {
            if cur_local + k < stream.len() { stream[cur_local + k] = d.data[off + k]; }
        }
        if cur_local + keep < stream.len() { stream[cur_local + keep] ^= 0x55; }
        data = ring_view(&stream, written, lg, tail, base, mirror_first_lap);
    }
    let max_length = if natural_len { (written - cur_local).min(tail) } else { (1 + rng.below(8) as usize).min(written - cur_local) };
    let max_backward_limit = lgwin_window - 16;
    let max_backward = if rng.chance(7, 8) { cur_ix.min(max_backward_limit) } else { rng.below(cur_ix.min(size) as u64 + 1) as usize };
    let max_distance = if rng.chance(1, 2) { 0x3ff_fffc } else { 0x7fff_fffc };
    // table state
    let tmode = rng.below(if small_table { 4 } else { 3 });
    let mut pre: Vec<String> = vec![];
    let la = kind.lookahead;
    let table_class;
    let store_hi_local = cur_local.min(written.saturating_sub(la + 3));
    let valid_lo_local = written.saturating_sub(size);
    let lo_local = if rng.chance(3, 4) { valid_lo_local.min(store_hi_local) } else { rng.below(store_hi_local as u64 + 1) as usize };
    if tmode != 3 && store_hi_local > lo_local {
        pre.push(format!("{}:{}:{}", if rng.chance(1, 2) { "R" } else { "S" }, base + lo_local, base + store_hi_local));
    }
    match tmode {
        0 => table_class = "natural",
        1 | 2 => {
            table_class = "poisoned";
            let (nb, nn) = (ctx.nb, ctx.nn);
            let advs: Vec<u64> = vec![cur_ix as u64, (cur_ix + 1) as u64, (cur_ix + size) as u64, 0, u32::MAX as u64, cur_ix.wrapping_sub(max_backward + 1) as u32 as u64, cur_ix.wrapping_sub(max_backward) as u32 as u64, cur_ix.wrapping_sub(1) as u32 as u64, (cur_ix as u64) ^ 0x8000_0000, cur_ix.wrapping_sub(size) as u32 as u64];
            // the slots a Store at cur_ix would use, computed from the key (HashBytes is a trait fn)
            let cur_m = cur_ix & mask;
            if cur_m + 8 <= data.len() {
                let key = ctx.h.HashBytes(&data[cur_m..]);
                let (start, block) = match kind.family {
                    Family::Basic { sweep } => (key, sweep),
                    _ => { let bb = kind_block_bits(kind); (key << bb, 1usize << bb) }
                };
                for j in 0..block.min(64) {
                    if start + j < nb && rng.chance(3, 4) {
                        let v = if rng.chance(1, 3) { (base + rng.below(written as u64 + 8) as usize) as u64 } else { *rng.pick(&advs) };
                        pre.push(format!("P:b:{}:{}", start + j, v));
                    }
                }
                if key < nn { pre.push(format!("P:n:{}:{}", key, *rng.pick(&[1u64, 2, 3, 15, 16, 17, 255, 256, 257, 65535, 40000]))); }
            }
        }
        _ => {
            table_class = "random";
            let (nb, nn) = (ctx.nb, ctx.nn);
            for i in 0..nb { pre.push(format!("P:b:{}:{}", i, if rng.chance(1, 2) { (base + rng.below(written as u64 + 4) as usize) as u64 } else { rng.next() & 0xffff_ffff })); }
            for i in 0..nn { pre.push(format!("P:n:{}:{}", i, rng.below(65536))); }
        }
    }
    // distance cache
    let mut cache = [0i32; 16];
    let cclass = rng.below(8);
    let cache_class;
    if cclass < 5 {
        cache_class = "reachable";
        let mut c4 = [4i32, 11, 15, 16];
        if cclass >= 1 {
            for k in 0..4 {
                if rng.chance(2, 3) && !dists.is_empty() {
                    let d = *rng.pick(&dists);
                    if d <= max_backward && d > 0 { c4[k] = d as i32; }
                }
            }
        }
        // initial values are only reachable while they are <= max_backward
        for k in 0..4 { if (c4[k] as usize) > max_backward { c4[k] = if max_backward > 0 { 1 + (rng.below(max_backward as u64) as i32) } else { POISON }; } }
        cache[..4].copy_from_slice(&c4);
    } else if cclass == 5 {
        cache_class = "catable-poison";
        for k in 0..4 { cache[k] = POISON; }
        // some entries replaced by real distances (2nd..4th only: the first real match shifts the poison down)
        if rng.chance(1, 2) && !dists.is_empty() { let d = *rng.pick(&dists); if d <= max_backward && d > 0 { cache[0] = d as i32; } }
    } else {
        cache_class = "arbitrary";
        let pool: Vec<i64> = vec![0, -1, -3, 1, 2, 3, max_backward as i64, max_backward as i64 + 1, max_backward as i64 + 2, cur_ix as i64, cur_ix as i64 + 1, POISON as i64, i32::MIN as i64, i32::MAX as i64, size as i64, size as i64 - 16, 16];
        for k in 0..4 {
            let v = if rng.chance(1, 3) && !dists.is_empty() { *rng.pick(&dists) as i64 } else { *rng.pick(&pool) };
            cache[k] = v.clamp(i32::MIN as i64, i32::MAX as i64) as i32;
        }
    }
    ctx.h.PrepareDistanceCache(&mut cache);
    let in_len = (*rng.pick(&[0usize, 0, 0, 1, 3, 4, 7])).min(max_length.saturating_sub(1));
    let in_score = *rng.pick(&[(30u64 * 8) * 8 + 100, 0, 2020, 100000]);
    let natural = natural_len && cache_class != "arbitrary";
    let lookups = *rng.pick(&[0usize, 0, 1, 127, 128, 1000]);
    let matches = *rng.pick(&[0usize, 0, 1, 7, 8]);
    (FlmCase { mask, data, pre, cur_ix, max_length, max_backward, max_distance, cache, in_len, in_score, dict, lookups, matches, natural, cache_class, table_class }, stream, base)
}

fn kind_block_bits(kind: &Kind) -> usize {
    match kind.spec.as_deref() {
        Some("h9") => 8,
        Some(s) => s.split(':').nth(2).and_then(|x| x.parse().ok()).unwrap_or(0),
        None => 0,
    }
}

/// a hasher of the kind for `PrepareDistanceCache` (the small-table twin where the kind has huge tables:
/// only `params.num_last_distances_to_check` matters)
fn build_light(kind: &Kind) -> UH {
    build(&kind.build)
}


// ---------------------------------------------------------------------------------------------
// end-to-end witness of the cached-distance defect (thorough tier only: 2 GiB of input, ~11 s per quality)

struct E2eGen { s: u64, pos: u64, rand_len: u64 }
impl E2eGen {
    fn byte(&mut self) -> u8 {
        let b = if self.pos < self.rand_len {
            if self.pos % 8 == 0 { self.s = self.s.wrapping_add(0x9E3779B97F4A7C15); }
            let mut z = self.s;
            z = (z ^ (z >> 30)).wrapping_mul(0xBF58476D1CE4E5B9);
            z = (z ^ (z >> 27)).wrapping_mul(0x94D049BB133111EB);
            z ^= z >> 31;
            (z >> (8 * (self.pos % 8))) as u8
        } else {
            ((self.pos % 16) as u8).wrapping_mul(17).wrapping_add(1)
        };
        self.pos += 1;
        b
    }
}
struct E2eCheck { g: E2eGen, bad: Option<u64>, n: u64 }
impl std::io::Write for E2eCheck {
    fn write(&mut self, buf: &[u8]) -> std::io::Result<usize> {
        for &b in buf {
            let e = self.g.byte();
            if b != e && self.bad.is_none() { self.bad = Some(self.n); }
            self.n += 1;
        }
        Ok(buf.len())
    }
    fn flush(&mut self) -> std::io::Result<()> { Ok(()) }
}

/// catable stream, lgwin 10: 2 147 483 700 non-repeating bytes (no copy is ever accepted, the distance
/// cache keeps the catable placeholder 0x7ffffff0), then a 16-byte pattern: before the fix the
/// single-slot match finder took the placeholder as a distance once positions passed 2 GiB
fn e2e_catable_2g(quality: i32) -> Result<(), String> {
    use std::io::Write;
    let rand_len: u64 = 2_147_483_700;
    let total: u64 = rand_len + 2_000_000;
    let r = catch_unwind(AssertUnwindSafe(|| -> Result<(), String> {
        let mut params = brotli::enc::BrotliEncoderParams::default();
        params.quality = quality;
        params.lgwin = 10;
        params.catable = true;
        params.appendable = true;
        params.use_dictionary = false;
        let check = E2eCheck { g: E2eGen { s: 1, pos: 0, rand_len }, bad: None, n: 0 };
        let dec = brotli_decompressor::DecompressorWriter::new(check, 1 << 16);
        let mut enc = brotli::CompressorWriter::with_params(dec, 1 << 16, &params);
        let mut g = E2eGen { s: 1, pos: 0, rand_len };
        let mut buf = vec![0u8; 1 << 20];
        let mut done = 0u64;
        while done < total {
            let n = ((total - done) as usize).min(buf.len());
            for x in buf[..n].iter_mut() { *x = g.byte(); }
            enc.write_all(&buf[..n]).map_err(|e| format!("write error at input offset {}: {}", done, e))?;
            done += n as u64;
        }
        enc.flush().map_err(|e| format!("flush error: {}", e))?;
        let dec = enc.into_inner();
        match dec.into_inner() {
            Ok(c) => {
                if let Some(b) = c.bad { return Err(format!("decoded byte {} differs from the input", b)); }
                if c.n != total { return Err(format!("decoded {} of {} bytes", c.n, total)); }
                Ok(())
            }
            Err(_) => Err("the decoder rejected the stream".to_string()),
        }
    }));
    match r {
        Ok(x) => x,
        Err(_) => Err("panic inside the encoder".to_string()),
    }
}

pub fn run(args: &Args) {
    let thorough = args.tier == "thorough";
    let seed = args.seed;
    if std::env::var("VERIF_VERBOSE_PANIC").is_err() { std::panic::set_hook(Box::new(|_| {})); }
    let mut corr = Corr::new(&args.out);
    let mut rep = Report::default();
    let mut kinds: Vec<Kind> = selected_kinds(false).into_iter().filter(|k| k.family != Family::H10).collect();
    kinds.extend(small_kinds());
    rep.add("kinds.total", kinds.len() as u64);

    // corpus: /verif/corpus/hasher-flm/*.txt, one request line per file (after '#' comments)
    // (request lines are replayed through the same oracle by re-parsing them)
    if let Ok(rd) = std::fs::read_dir("/verif/corpus/hasher-flm") {
        let mut files: Vec<_> = rd.filter_map(|e| e.ok()).map(|e| e.path()).collect();
        files.sort();
        for f in files {
            let txt = std::fs::read_to_string(&f).unwrap_or_default();
            for line in txt.lines().filter(|l| !l.starts_with('#') && !l.trim().is_empty()) {
                if let Some((kind, c)) = parse_request(line, &kinds) {
                    rep.count("corpus.cases");
                    rep.evaluations += 1;
                    let mut cctx = Ctx::new(&kind);
                    let (ans, panicked, found, out) = flm_run(&kind, &mut cctx, &c);
                    if let Some(rq) = flm_request(&kind, &cctx, &c) { corr.case(&rq, &ans); }
                    if panicked { rep.count("corpus.panic"); }
                    if let Some((sig, what)) = judge(&kind, &c, None, found, &out) {
                        rep.violation(&format!("flm:{}", sig), &what, case_json(&kind, &cctx, &c, seed));
                    }
                }
            }
        }
    }

    let scale = if thorough { 10 } else { 1 };
    let mut tasks: Vec<(Kind, usize)> = vec![];
    for k in &kinds {
        let shards = if k.table_bytes > (4 << 20) { 4 } else { 2 };
        for sh in 0..shards { tasks.push((k.clone(), sh)); }
    }
    let nt = tasks.len();
    let results = par_tasks(nt, move |i| {
        let (kind, _sh) = tasks[i].clone();
        let mut rng = Rng::new(seed ^ 0xF1A ^ ((i as u64) << 20));
        let mut rep = Report::default();
        let mut lines: Vec<(String, String)> = vec![];
        let big = kind.table_bytes > (4 << 20);
        let mid = kind.table_bytes > (600 << 10);
        let small_table = kind.table_bytes < (64 << 10);
        let ncases = (if big { 500 } else if mid { 4000 } else { 18000 }) * scale;
        let ncorr = (if big { 6 } else if mid { 40 } else { 200 }) * scale.min(3);
        let every = (ncases / ncorr).max(1);
        let mut ctx = Ctx::new(&kind);
        for ci in 0..ncases {
            let (c, stream, base) = gen_case(&kind, &ctx, &mut rng, small_table);
            rep.evaluations += 1;
            let (ans, panicked, found, out) = flm_run(&kind, &mut ctx, &c);
            rep.count(&format!("kind.{}", kind.variant));
            rep.count(&format!("table.{}", c.table_class));
            rep.count(&format!("cache.{}", c.cache_class));
            if c.dict { rep.count("dict.passed"); }
            if c.cur_ix >= (1 << 31) - 16 { rep.count("pos.beyond_2g"); }
            if panicked {
                rep.count("panic");
                if c.natural && c.table_class != "random" {
                    let sig = format!("flm:panic:{}", match kind.family { Family::Basic { .. } => "basic", Family::Adv4 | Family::Adv8 => "adv", _ => "h9" });
                    rep.count(&format!("viol.{}", sig));
                    if !rep.violations.iter().any(|v| v.signature == sig) {
                        rep.violations.push(Violation { signature: sig, what: "FindLongestMatch panicked within the encoder's calling conditions".into(), case: case_json(&kind, &ctx, &c, seed) });
                    }
                }
            }
            if found {
                rep.nontrivial += 1;
                if out.distance > c.max_backward { rep.count("found.dictionary"); } else { rep.count("found.copy"); }
            }
            if let Some((sig, what)) = judge(&kind, &c, Some((&stream, base)), found, &out) {
                let sig = format!("flm:{}", sig);
                rep.count(&format!("viol.{}", sig));
                if !rep.violations.iter().any(|v| v.signature == sig) {
                    rep.violations.push(Violation { signature: sig, what, case: case_json(&kind, &ctx, &c, seed) });
                }
            }
            if ci % every == 0 {
                if let Some(rq) = flm_request(&kind, &ctx, &c) { lines.push((rq, ans)); }
            }
        }
        (lines, rep)
    });
    let mut per_sig: std::collections::BTreeMap<String, usize> = Default::default();
    for (lines, mut r) in results {
        for (rq, an) in lines { corr.case(&rq, &an); }
        let vs = std::mem::take(&mut r.violations);
        rep.merge(r);
        for v in vs {
            let c = per_sig.entry(v.signature.clone()).or_insert(0);
            *c += 1;
            if *c <= 2 { rep.violations.push(v); }
        }
    }
    if thorough {
        let res = par_tasks(3, |i| (i as i32 + 2, e2e_catable_2g(i as i32 + 2)));
        for (q, r) in res {
            rep.evaluations += 1;
            rep.count("e2e.catable_2g");
            match r {
                Ok(()) => rep.nontrivial += 1,
                Err(what) => rep.violation(
                    "flm:e2e-catable-beyond-2g",
                    &format!("quality {} lgwin 10 catable, 2 147 483 700 non-repeating bytes + 2 000 000 bytes of a 16-byte pattern: {}", q, what),
                    format!("{{\"quality\": {}, \"lgwin\": 10, \"catable\": true, \"generator\": \"hasher_flm.rs E2eGen\"}}", q),
                ),
            }
        }
    }
    corr.finish();
    rep.write(&args.out);
}

/// parse a request line back into a case (corpus replay)
pub fn parse_request(line: &str, kinds: &[Kind]) -> Option<(Kind, FlmCase)> {
    let t: Vec<&str> = line.split_whitespace().collect();
    if t.len() < 8 || t[0] != "hasher" || t[1] != "flm" { return None; }
    let kind = kinds.iter().find(|k| k.spec.as_deref() == Some(t[2]))?.clone();
    let mask = if t[3] == "max" { usize::MAX } else { t[3].parse().ok()? };
    let data = unhex(t[4]);
    let fpos = t.iter().position(|x| *x == "F")?;
    let pre: Vec<String> = t[5..fpos].iter().map(|s| s.to_string()).collect();
    let a = &t[fpos + 1..];
    if a.len() < 8 { return None; }
    let mut cache = [0i32; 16];
    for (i, x) in a[4].split(',').enumerate().take(16) { cache[i] = x.parse().ok()?; }
    let f: Vec<&str> = a[7].split(':').collect();
    if f.len() < 3 { return None; }
    let dict = f[2] != "-";
    let (lookups, matches) = (f[0].parse().ok()?, f[1].parse().ok()?);
    Some((kind, FlmCase { mask, data, pre, cur_ix: a[0].parse().ok()?, max_length: a[1].parse().ok()?, max_backward: a[2].parse().ok()?, max_distance: a[3].parse().ok()?, cache, in_len: a[5].parse().ok()?, in_score: a[6].parse().ok()?, dict, lookups, matches, natural: false, cache_class: "corpus", table_class: "corpus" }))
}
