//! engine `greedy` (C01, module BV.Props.C01Greedy): the greedy meta-block builder `BrotliBuildMetaBlockGreedy`
//! (quality 4..9: `BlockSplitter` x3 or `ContextBlockSplitter` + 2x `BlockSplitter`, `MapStaticContexts`).
//!
//! Cases (all from one PRNG state): LZ data built together with its command array, in REGIONS of different statistics so that
//! the splitters take every branch (first block, new block type, merge with the second-to-last type — regions alternate
//! A B A B —, merge with the last block, growing target block size, final short block padded to `min_block_size`):
//!   * literal-heavy (up to ~14000 literals, regions of 300..3000 bytes over digits / letters / bytes / two symbols / text-like),
//!   * command-heavy (up to ~2600 short commands whose insert / copy lengths and distances depend on the region: command and
//!     distance block splits),
//!   * tiny (0, 1, few commands; no literals; no distances),
//!   * types (26 regions of ~540 literals over byte ranges of their own, 13 contexts: the limit of 19 literal block types is reached) and, once per run,
//!     types256 (300 such regions, one context: 256 literal block types; too long for a correspondence line, search oracle only),
//!   * `num_contexts` 1, 2, 3, 13 with the three static maps of `encode.rs` (`kStaticContextMapSimpleUTF8`,
//!     `kStaticContextMapContinuation`, `kStaticContextMapComplexUTF8`, transcribed here) or random maps with entries `< num_contexts`,
//!     context modes 0..3, ring of 2^k bytes at a wrapped position;
//!   * malformed (correspondence of the panic sites): ring shorter than `mask + 1`, command symbol >= 704, distance symbol >= 544,
//!     `num_contexts` 0 / 14, static map shorter than 64 entries.
//!
//! Correspondence (Lean driver `BV/Drive/Greedy.lean`, model `BV/Model/Greedy.lean` with the float oracle instantiated by Float32):
//!   greedy build <mode> <num_contexts> <static map csv|-> <prev> <prev2> <mask> <pos> <ringhex> <cmds> <exc>
//!       -> `ok <lit> <cmd> <dist> cmap=<size>:<digest> lh=<size>:<digest> ch=<size>:<digest> dh=<size>:<digest>` | `panic`
//!          split = num_types/num_blocks/types/lengths (the first num_blocks entries), digests = FNV over the literal context map,
//!          resp. over every `data_` entry of the first `size` histograms; then `opt=<lit>:<cmd>:<dist>`: the three histogram digests behind the real
//!          `BrotliOptimizeHistograms(64, mb)` (model `optimizeHistograms`)
//!   greedy log2 <exc> -> `<digest of logs_16> <digest of FastLog2(256..2^20)>`
//!   exc = the entries of `logs_16` / `logs_8` that differ from `(v as f64).log2() as f32` (recomputed here over the whole tables on
//!         every run), `v:hexbits,...` | `-`
//!
//! Search oracle (real code alone), on every well-formed case: the builder does not panic and the `MetaBlockSplit` is well formed in
//! the sense of the hypothesis of `full_metablock_roundtrip`, checked by an independent walk over the commands: per category
//! num_blocks >= 1, first type 0, types < num_types <= 256, every new type is the successor of the largest so far, lengths >= 1
//! and <= 2^24, the lengths of all blocks but the last sum to less than the symbol count and all of them to at least it,
//! num_types = 1 => one block; the literal context map is absent (num_contexts = 1) or has 64 * num_types entries
//! `type * num_contexts + static_map[context]` < histograms_size = num_types * num_contexts <= 256; every histogram equals the
//! exact count of the symbols emitted under it (block type by the split, static context by `lit_context`).  Then the real
//! `BrotliStoreMetaBlock` writes the meta-block with that split (after `BrotliOptimizeHistograms`, as `encode.rs` does) and
//! both decoders decode it to the input.
//! non-trivial case = a well-formed case in which some category got at least two block types.
//! Violation signatures: greedy:panic, greedy:split-malformed:<what>, greedy:histogram-differs, greedy:roundtrip.
use crate::util::*;
use crate::prng::Rng;
use crate::dict::base_params;
use brotli::enc::StandardAlloc as EncAlloc;
use brotli::enc::command::{BrotliDistanceParams, Command, ComputeDistanceCode};
use brotli::enc::brotli_bit_stream::{self as bbs, RecoderState};
use brotli::enc::interface;
use brotli::InputReferenceMut;
use brotli::interface::InputPair;
use alloc_no_stdlib::SliceWrapper;
use std::panic::{catch_unwind, AssertUnwindSafe};

type MbS = bbs::MetaBlockSplit<EncAlloc>;

const SIMPLE_UTF8: [u32; 64] = [0, 0, 1, 1, 0, 0, 0, 0, 0, 0, 0, 0, 0, 0, 0, 0, 0, 0, 0, 0, 0, 0, 0, 0, 0, 0, 0, 0, 0, 0, 0, 0, 0, 0, 0, 0, 0, 0, 0, 0, 0, 0, 0, 0, 0, 0, 0, 0, 0, 0, 0, 0, 0, 0, 0, 0, 0, 0, 0, 0, 0, 0, 0, 0];
const CONTINUATION: [u32; 64] = [1, 1, 2, 2, 0, 0, 0, 0, 0, 0, 0, 0, 0, 0, 0, 0, 0, 0, 0, 0, 0, 0, 0, 0, 0, 0, 0, 0, 0, 0, 0, 0, 0, 0, 0, 0, 0, 0, 0, 0, 0, 0, 0, 0, 0, 0, 0, 0, 0, 0, 0, 0, 0, 0, 0, 0, 0, 0, 0, 0, 0, 0, 0, 0];
const COMPLEX_UTF8: [u32; 64] = [11, 11, 12, 12, 0, 0, 0, 0, 1, 1, 9, 9, 2, 2, 2, 2, 1, 1, 1, 1, 8, 3, 3, 3, 1, 1, 1, 1, 2, 2, 2, 2, 8, 4, 4, 4, 8, 7, 4, 4, 8, 0, 0, 0, 3, 3, 3, 3, 5, 5, 10, 5, 5, 5, 10, 5, 6, 6, 6, 6, 6, 6, 6, 6];

fn cmd_tok(c: &Command) -> String { format!("{}:{}:{}:{}:{}", c.insert_len_, c.copy_len_, c.dist_extra_, c.cmd_prefix_, c.dist_prefix_) }
fn cmds_tok(cs: &[Command]) -> String { if cs.is_empty() { "-".into() } else { cs.iter().map(cmd_tok).collect::<Vec<_>>().join(";") } }
fn nats_tok<T: std::fmt::Display>(v: &[T]) -> String { if v.is_empty() { "-".into() } else { v.iter().map(|x| x.to_string()).collect::<Vec<_>>().join(",") } }

fn ctx_type(mode: u32) -> brotli::enc::histogram::ContextType {
    use brotli::enc::histogram::ContextType::*;
    match mode { 0 => CONTEXT_LSB6, 1 => CONTEXT_MSB6, 2 => CONTEXT_UTF8, _ => CONTEXT_SIGNED }
}

/// RFC 7932 section 7.1 literal context, written independently of `Context()`
fn lit_context(mode: u32, p1: u8, p2: u8) -> usize {
    use brotli::enc::constants::{kUTF8ContextLookup, kSigned3BitContextLookup};
    match mode { 0 => (p1 & 0x3f) as usize, 1 => (p1 >> 2) as usize,
        2 => (kUTF8ContextLookup[p1 as usize] | kUTF8ContextLookup[256 + p2 as usize]) as usize,
        _ => ((kSigned3BitContextLookup[p1 as usize] as usize) << 3) | kSigned3BitContextLookup[p2 as usize] as usize }
}

fn dist_params() -> BrotliDistanceParams {
    BrotliDistanceParams { distance_postfix_bits: 0, num_direct_distance_codes: 0, alphabet_size: 64, max_distance: 0x3ff_fffc }
}

/// the table entries that differ from the recomputation `(v as f64).log2() as f32` (`log2(0) = 0`)
fn log_exceptions() -> String {
    use brotli::enc::util::{FastLog2u16, FastLog2};
    let mut v: Vec<String> = Vec::new();
    let re = |x: u64| -> u32 { if x == 0 { 0 } else { ((x as f64).log2() as f32).to_bits() } };
    for x in 0u64..65536 {
        let t = FastLog2u16(x as u16).to_bits();
        let t8 = if x < 256 { FastLog2(x).to_bits() } else { t };
        // (one exception list serves both tables: an entry below 256 on which they disagreed would make the `log2` line differ)
        if t != re(x) || t8 != re(x) { v.push(format!("{}:{:08x}", x, t)); }
    }
    if v.is_empty() { "-".into() } else { v.join(",") }
}

#[derive(Clone)]
struct Case { kind: &'static str, mode: u32, nctx: usize, scm: Vec<u32>, prev: u8, prev2: u8, mask: usize, pos: usize, ring: Vec<u8>, cmds: Vec<Command>, bytes: Vec<u8>, wellformed: bool }

fn region_byte(rng: &mut Rng, style: u64, i: usize) -> u8 {
    if style >= 100 { return (((style - 100) * 37) % 250) as u8 + rng.below(5) as u8; }   // kind "types": a narrow byte range of its own per region
    match style {
        0 => b'0' + rng.below(10) as u8,
        1 => b'a' + rng.below(26) as u8,
        2 => rng.next() as u8,
        3 => if rng.chance(1, 2) { 0 } else { 255 },
        4 => { let w = b"the quick brown fox, jumps over. The lazy dog! "; w[(i + rng.below(2) as usize) % w.len()] }
        5 => 0xc3u8.wrapping_add((i & 1) as u8 * 0x1d).wrapping_add(rng.below(3) as u8),
        6 => 200 + rng.below(40) as u8,
        _ => b'A' + rng.below(4) as u8,
    }
}

fn gen_case(rng: &mut Rng, kind: &'static str) -> Case {
    let dist = dist_params();
    let mut out: Vec<u8> = Vec::new();
    let mut cmds: Vec<Command> = Vec::new();
    let mut cache = [4i32, 11, 15, 16];
    let (nregions, max_total, max_cmds) = match kind {
        "tiny" => (1usize, rng.below(40) as usize, 8usize),
        "lit" => (rng.range(1, 9) as usize, rng.range(600, 14000) as usize, 400),
        // every region looks new to the splitter: as many literal block types as `max_block_types` allows (19 with 13 contexts)
        "types" => (26usize, 14000usize, 60usize),
        "types256" => (300usize, 150000usize, 700usize),
        "cmd" => (rng.range(1, 6) as usize, 13000, rng.range(1100, 2600) as usize),
        _ => (rng.range(1, 6) as usize, rng.range(200, 9000) as usize, 1500),
    };
    // regions: (end, byte style, command style); alternating byte styles A B A B … with probability 1/2, else independent
    let alt = rng.chance(1, 2);
    let sa = rng.below(8); let sb = rng.below(8);
    let mut regions: Vec<(usize, u64, (u64, u64, u64, u64))> = Vec::new();
    let mut end = 0usize;
    for r in 0..nregions {
        let style = if kind == "types" || kind == "types256" { 100 + r as u64 } else if alt { if r % 2 == 0 { sa } else { sb } } else { rng.below(8) };
        let rlen = match kind { "tiny" => max_total, "types" | "types256" => rng.range(515, 560) as usize, "lit" => rng.range(300, 3000) as usize, "cmd" => rng.range(1500, 5000) as usize, _ => rng.range(100, 3000) as usize };
        end = (end + rlen).min(max_total);
        let cs = match (kind, rng.below(4)) {
            ("lit", 0) => (600u64, 2u64, 6u64, 0u64), ("lit", _) => (200, 2, 12, rng.below(3)),
            ("types", _) | ("types256", _) => (600, 2, 4, 0),
            ("cmd", 0) => (1, 2, 3, 0), ("cmd", 1) => (3, 4, 9, 1), ("cmd", 2) => (6, 2, 2, 2), ("cmd", _) => (2, 10, 20, rng.below(3)),
            (_, 0) => (40, 2, 30, 0), (_, _) => (8, 2, 9, rng.below(3)),
        };
        regions.push((end, style, cs));
    }
    let total = end;
    while out.len() < total && cmds.len() < max_cmds {
        let (_, style, (imax, cmin, cmax, dmode)) = *regions.iter().find(|r| out.len() < r.0).unwrap();
        let rem = total - out.len();
        // kind "types": one command = 512 literals = one block of the literal splitter, over a byte range of its own
        let style = if kind == "types" || kind == "types256" { 100 + cmds.len() as u64 } else { style };
        let mut ins = if kind == "types" || kind == "types256" { 512 } else if kind == "lit" && rng.chance(1, 3) { rng.range(imax / 2, imax) as usize } else { rng.below(imax + 1) as usize };
        if out.is_empty() && ins == 0 { ins = 1; }
        let ins = ins.min(rem);
        for _ in 0..ins { let b = region_byte(rng, style, out.len()); out.push(b); }
        let rem = total - out.len();
        if rem < 2 || (kind == "tiny" && rng.chance(1, 3)) {
            // close the meta-block with an insert-only command (only ever the LAST command)
            if rem == 1 { out.push(region_byte(rng, style, 0)); let mut c = Command::default(); c.init_insert(ins + 1); cmds.push(c); }
            else if ins > 0 { let mut c = Command::default(); c.init_insert(ins); cmds.push(c); }
            break;
        }
        let clen = rng.range(cmin, cmax.min(rem as u64).max(cmin)).min(rem as u64) as usize;
        let maxd = out.len();
        let distance = match dmode { 0 => rng.range(1, (maxd as u64).min(16)) as usize, 1 => cache[rng.below(2) as usize] as usize, _ => rng.range(1, maxd as u64) as usize };
        let distance = if distance == 0 || distance > maxd { rng.range(1, maxd as u64) as usize } else { distance };
        let code = ComputeDistanceCode(distance, maxd, &cache);
        if code != 0 { cache = [distance as i32, cache[0], cache[1], cache[2]]; }
        cmds.push(Command::new(&dist, ins, clen, clen, code));
        for _ in 0..clen { let b = out[out.len() - distance]; out.push(b); }
    }
    // a command array must end exactly at the data: if the last command copies, fine; if the loop stopped on max_cmds, fine too.
    let len = out.len();
    let mut k = 3; while (1usize << k) < len + 2 { k += 1; }
    if rng.chance(1, 4) && k < 14 { k += 1; }
    let mask = (1usize << k) - 1;
    let pos = 2 + match rng.below(3) { 0 => 0, 1 => (mask + 1) * rng.range(1, 3) as usize - 2 - rng.below(len as u64 + 1).min(mask as u64 - 1) as usize, _ => rng.below(4 * (mask as u64 + 1)) as usize };
    let mut ring: Vec<u8> = (0..mask + 1).map(|_| rng.next() as u8).collect();
    for (j, b) in out.iter().enumerate() { ring[(pos + j) & mask] = *b; }
    // three quarters of the cases stand at the start of a stream (previous bytes 0, 0: these go through the round-trip oracle)
    if !rng.chance(1, 4) { ring[(pos - 1) & mask] = 0; ring[(pos - 2) & mask] = 0; }
    let prev = ring[(pos - 1) & mask]; let prev2 = ring[(pos - 2) & mask];
    let nctx = if kind == "types" { 13 } else if kind == "types256" { 1 } else { *rng.pick(&[1usize, 1, 1, 2, 3, 13, 13, 5]) };
    // kind "types": all literals under one static context (else blocks over disjoint byte ranges fall into different contexts and merging them costs nothing)
    let scm: Vec<u32> = if kind == "types" { vec![0; 64] } else { match nctx { 1 => vec![], 2 => SIMPLE_UTF8.to_vec(), 3 => CONTINUATION.to_vec(), 13 if rng.chance(2, 3) => COMPLEX_UTF8.to_vec(), n => (0..64).map(|_| rng.below(n as u64) as u32).collect() } };
    Case { kind, mode: rng.below(4) as u32, nctx, scm, prev, prev2, mask, pos, ring, cmds, bytes: out, wellformed: true }
}

fn mutate(rng: &mut Rng, mut c: Case) -> Case {
    c.wellformed = false;
    c.kind = "malformed";
    match rng.below(6) {
        0 => { let n = c.ring.len(); c.ring.truncate(rng.below(n as u64) as usize); }
        1 => { if let Some(i) = (!c.cmds.is_empty()).then(|| rng.below(c.cmds.len() as u64) as usize) { c.cmds[i].cmd_prefix_ = 704 + rng.below(300) as u16; } }
        2 => { if let Some(i) = (!c.cmds.is_empty()).then(|| rng.below(c.cmds.len() as u64) as usize) { c.cmds[i].dist_prefix_ = (c.cmds[i].dist_prefix_ & 0xfc00) | (544 + rng.below(400) as u16); c.cmds[i].cmd_prefix_ |= 128; } }
        3 => { c.nctx = *rng.pick(&[0usize, 14, 20]); c.scm = vec![0; 64]; }
        4 => { if c.nctx > 1 { let n = rng.below(64) as usize; c.scm.truncate(n); } else { c.nctx = 2; c.scm = vec![0; rng.below(64) as usize]; } }
        _ => { if let Some(i) = (!c.cmds.is_empty()).then(|| rng.below(c.cmds.len() as u64) as usize) { c.cmds[i].insert_len_ += rng.range(1, 3000) as u32; } }
    }
    c
}

struct Built { lit: (usize, Vec<u8>, Vec<u32>), cmd: (usize, Vec<u8>, Vec<u32>), dist: (usize, Vec<u8>, Vec<u32>), cmap: Vec<u32>, lh: Vec<Vec<u32>>, ch: Vec<Vec<u32>>, dh: Vec<Vec<u32>> }

fn from_real(mb: &MbS) -> Built {
    let sp = |b: &brotli::enc::block_split::BlockSplit<EncAlloc>| (b.num_types, b.types.slice()[..b.num_blocks].to_vec(), b.lengths.slice()[..b.num_blocks].to_vec());
    Built { lit: sp(&mb.literal_split), cmd: sp(&mb.command_split), dist: sp(&mb.distance_split),
        cmap: mb.literal_context_map.slice()[..mb.literal_context_map_size].to_vec(),
        lh: mb.literal_histograms.slice()[..mb.literal_histograms_size].iter().map(|h| h.data_.to_vec()).collect(),
        ch: mb.command_histograms.slice()[..mb.command_histograms_size].iter().map(|h| h.data_.to_vec()).collect(),
        dh: mb.distance_histograms.slice()[..mb.distance_histograms_size].iter().map(|h| h.data_.to_vec()).collect() }
}

fn digest_nats(v: &[u32]) -> u64 { v.iter().fold(FNV_INIT, |d, x| fnv_step(d, *x as u64)) }
fn digest_histos(hs: &[Vec<u32>]) -> u64 { hs.iter().fold(FNV_INIT, |d, h| h.iter().fold(d, |d, x| fnv_step(d, *x as u64))) }
fn sp_tok(s: &(usize, Vec<u8>, Vec<u32>)) -> String { format!("{}/{}/{}/{}", s.0, s.1.len(), nats_tok(&s.1), nats_tok(&s.2)) }

fn answer(b: &Built) -> String {
    format!("ok {} {} {} cmap={}:{} lh={}:{} ch={}:{} dh={}:{}", sp_tok(&b.lit), sp_tok(&b.cmd), sp_tok(&b.dist), b.cmap.len(), digest_nats(&b.cmap),
        b.lh.len(), digest_histos(&b.lh), b.ch.len(), digest_histos(&b.ch), b.dh.len(), digest_histos(&b.dh))
}

/// independent check of one category: the split is well formed and the histograms are the exact counts.
/// `syms`: (histogram offset inside the block type's group, symbol); `group`: histograms per block type
fn check_cat(name: &str, sp: &(usize, Vec<u8>, Vec<u32>), histos: &[Vec<u32>], group: usize, syms: &[(usize, usize)]) -> Result<(), String> {
    let (nt, types, lengths) = (sp.0, &sp.1, &sp.2);
    if types.is_empty() || types.len() != lengths.len() { return Err(format!("{}:no-blocks", name)); }
    if types[0] != 0 { return Err(format!("{}:first-type", name)); }
    if nt < 1 || nt > 256 { return Err(format!("{}:num-types", name)); }
    let mut maxt = 0usize;
    for (j, t) in types.iter().enumerate() {
        let t = *t as usize;
        if t >= nt { return Err(format!("{}:type-range", name)); }
        if t > maxt + 1 { return Err(format!("{}:type-skips", name)); }
        if t > maxt { maxt = t; }
        if lengths[j] < 1 || lengths[j] > (1 << 24) { return Err(format!("{}:length-range", name)); }
    }
    if maxt + 1 != nt { return Err(format!("{}:unused-type", name)); }
    if nt == 1 && types.len() != 1 { return Err(format!("{}:single-type-many-blocks", name)); }
    let total: usize = lengths.iter().map(|l| *l as usize).sum();
    let but_last = total - *lengths.last().unwrap() as usize;
    if total < syms.len() { return Err(format!("{}:lengths-short", name)); }
    if types.len() > 1 && but_last >= syms.len() { return Err(format!("{}:empty-last-block", name)); }
    if histos.len() != nt * group { return Err(format!("{}:histograms-size", name)); }
    let mut want: Vec<Vec<u32>> = histos.iter().map(|h| vec![0u32; h.len()]).collect();
    let (mut j, mut rem) = (0usize, lengths[0] as usize);
    for (off, sym) in syms.iter() {
        if rem == 0 { j += 1; rem = lengths[j] as usize; }
        rem -= 1;
        want[types[j] as usize * group + off][*sym] += 1;
    }
    if want.iter().zip(histos.iter()).any(|(a, b)| a != b) { return Err(format!("histogram:{}", name)); }
    Ok(())
}

fn put_bits(storage: &mut [u8], six: &mut usize, n: usize, v: u64) {
    for i in 0..n { if (v >> i) & 1 == 1 { storage[*six >> 3] |= 1 << (*six & 7); } *six += 1; }
}

fn run_case(c: &Case, exc: &str, rep: &mut Report, lines: &mut Vec<(String, String)>) {
    rep.evaluations += 1;
    rep.count(&format!("case.{}", c.kind));
    let mut alloc = EncAlloc::default();
    let mut mbr = MbS::new();
    let r = catch_unwind(AssertUnwindSafe(|| brotli::enc::metablock::BrotliBuildMetaBlockGreedy(&mut alloc, &c.ring, c.pos, c.mask, c.prev, c.prev2, ctx_type(c.mode), &[], c.nctx, &c.scm, &c.cmds, c.cmds.len(), &mut mbr)));
    let op = format!("greedy build {} {} {} {} {} {} {} {} {} {}", c.mode, c.nctx, nats_tok(&c.scm), c.prev, c.prev2, c.mask, c.pos, hex(&c.ring), cmds_tok(&c.cmds), exc);
    let case_json = || format!("{{\"kind\": {}, \"op\": {}}}", jstr(c.kind), jstr(&op));
    if r.is_err() {
        if op.len() < 64000 { lines.push((op.clone(), "panic".to_string())); rep.count("corr.build.panic"); }
        if c.wellformed { rep.violation("greedy:panic", "BrotliBuildMetaBlockGreedy panicked on a well-formed command array", case_json()); }
        return;
    }
    let b = from_real(&mbr);
    // `BrotliOptimizeHistograms` as `encode.rs` runs it behind the builder (the round trip below writes the optimised histograms)
    let opt = if catch_unwind(AssertUnwindSafe(|| brotli::enc::metablock::BrotliOptimizeHistograms(64, &mut mbr))).is_ok() {
        let o = from_real(&mbr); format!("opt={}:{}:{}", digest_histos(&o.lh), digest_histos(&o.ch), digest_histos(&o.dh))
    } else { if c.wellformed { rep.violation("greedy:panic", "BrotliOptimizeHistograms panicked behind the greedy builder", case_json()); } "opt=panic".to_string() };
    if op.len() < 64000 { lines.push((op.clone(), format!("{} {}", answer(&b), opt))); rep.count("corr.build.ok"); } else { rep.count("corr.build.line_too_long"); }
    rep.count(&format!("num_contexts.{}", c.nctx));
    if c.kind == "types" { rep.count(&format!("types.literal_block_types.{:02}.blocks.{:02}", b.lit.0, b.lit.1.len())); }
    for (n, s) in [("literal", &b.lit), ("command", &b.cmd), ("distance", &b.dist)] {
        if s.0 > 1 { rep.count(&format!("{}.block_types>1", n)); }
        if s.0 > 2 { rep.count(&format!("{}.block_types>2", n)); }
        if n == "literal" && c.nctx >= 1 && s.0 == 256 / c.nctx { rep.count(&format!("literal.block_types=max_block_types({})", 256 / c.nctx)); }
        if s.1.len() > s.0 { rep.count(&format!("{}.type_reused(merge-with-second-to-last)", n)); }
        if s.2.iter().any(|l| *l > 2 * (if n == "command" { 1024 } else { 512 })) { rep.count(&format!("{}.merged_blocks", n)); }
    }
    if !c.wellformed { mbr.destroy(&mut alloc); return; }
    if b.lit.0 > 1 || b.cmd.0 > 1 || b.dist.0 > 1 { rep.nontrivial += 1; }
    // ---- the search oracle: independent walk
    let mut lits: Vec<(usize, usize)> = Vec::new(); let mut cs: Vec<(usize, usize)> = Vec::new(); let mut ds: Vec<(usize, usize)> = Vec::new();
    {
        let (mut p1, mut p2) = (c.prev, c.prev2);
        let mut k = 0usize;
        for cmd in c.cmds.iter() {
            cs.push((0, cmd.cmd_prefix_ as usize));
            for _ in 0..cmd.insert_len_ as usize {
                let off = if c.nctx == 1 { 0 } else { c.scm[lit_context(c.mode, p1, p2)] as usize };
                lits.push((off, c.bytes[k] as usize));
                p2 = p1; p1 = c.bytes[k]; k += 1;
            }
            let cl = (cmd.copy_len_ & 0x1ffffff) as usize;
            k += cl;
            if cl != 0 {
                p2 = if k >= 2 { c.bytes[k - 2] } else { c.prev }; p1 = c.bytes[k - 1];
                if cmd.cmd_prefix_ >= 128 { ds.push((0, (cmd.dist_prefix_ & 0x3ff) as usize)); }
            }
        }
    }
    let mut bad: Option<String> = None;
    for (n, s, h, g, sy) in [("literal", &b.lit, &b.lh, c.nctx, &lits), ("command", &b.cmd, &b.ch, 1usize, &cs), ("distance", &b.dist, &b.dh, 1usize, &ds)] {
        if let Err(e) = check_cat(n, s, h, g, sy) { bad = Some(e); break; }
    }
    if bad.is_none() {
        if c.nctx == 1 { if !b.cmap.is_empty() { bad = Some("literal:context-map-present".into()); } }
        else if b.cmap.len() != 64 * b.lit.0 { bad = Some("literal:context-map-size".into()); }
        else if b.lh.len() > 256 { bad = Some("literal:too-many-histograms".into()); }
        else { for t in 0..b.lit.0 { for j in 0..64 { if b.cmap[64 * t + j] as usize != t * c.nctx + c.scm[j] as usize { bad = Some("literal:context-map-entry".into()); } } } }
    }
    if let Some(e) = bad {
        if e.starts_with("histogram:") { rep.violation("greedy:histogram-differs", &format!("a histogram of the greedy builder is not the count of the symbols emitted under it ({})", e), case_json()); }
        else { rep.violation(&format!("greedy:split-malformed:{}", e), "the MetaBlockSplit built by BrotliBuildMetaBlockGreedy is not well formed", case_json()); }
        mbr.destroy(&mut alloc);
        return;
    }
    rep.count("oracle.split_wellformed");
    // ---- round trip through the real writer and both decoders
    let len = c.bytes.len();
    let consumed: usize = c.cmds.iter().map(|x| x.insert_len_ as usize + (x.copy_len_ & 0x1ffffff) as usize).sum();
    if len >= 1 && consumed == len && c.prev == 0 && c.prev2 == 0 {
        let mut p = base_params(5, 22);
        p.dist = dist_params();
        let mut storage = vec![0u8; 4 * len + 40 * c.cmds.len() + 70000];
        let mut six = 0usize;
        put_bits(&mut storage, &mut six, 4, ((22 - 17) << 1) | 1);     // WBITS 22 (window 2^22 - 16 > every distance used)
        let mut rs = RecoderState { num_bytes_encoded: 0 };
        let dc = [4i32, 11, 15, 16];
        let ok = catch_unwind(AssertUnwindSafe(|| {
            let mut cb = |_pm: &mut interface::PredictionModeContextMap<InputReferenceMut>, _c: &mut [interface::StaticCommand], _mb: InputPair, _a: &mut EncAlloc| {};
            bbs::BrotliStoreMetaBlock(&mut alloc, &c.ring, c.pos, len, c.mask, c.prev, c.prev2, 1, &p, ctx_type(c.mode), &dc, &c.cmds, c.cmds.len(), &mut mbr, &mut rs, &mut six, &mut storage, &mut cb)
        })).is_ok();
        if !ok { rep.violation("greedy:roundtrip", "BrotliStoreMetaBlock panicked on the split of the greedy builder", case_json()); }
        else {
            let stream = storage[..(six + 7) >> 3].to_vec();
            match crate::dec::decode_both(&stream, false, &c.bytes) {
                Ok(()) => rep.count("oracle.roundtrip.ok"),
                Err(e) => { rep.violation("greedy:roundtrip", &format!("greedy builder + BrotliStoreMetaBlock does not decode to the input: {} [types {} {} {}, num_contexts {}, {} bytes, {} commands]", e, b.lit.0, b.cmd.0, b.dist.0, c.nctx, len, c.cmds.len()), case_json()) },
            }
        }
    } else { rep.count("oracle.roundtrip.skipped(not at the start of a stream, or the commands do not end at the data)"); }
    mbr.destroy(&mut alloc);
}

pub fn run_cmd(args: &Args) {
    let thorough = args.tier == "thorough";
    let mut corr = Corr::new(&args.out);
    let mut rep = Report::default();
    std::panic::set_hook(Box::new(|_| {}));
    let exc = log_exceptions();
    {
        use brotli::enc::util::{FastLog2u16, FastLog2};
        let a = (0u64..65536).fold(FNV_INIT, |d, v| fnv_step(d, FastLog2u16(v as u16).to_bits() as u64));
        let b = (256u64..(1 << 20)).fold(FNV_INIT, |d, v| fnv_step(d, FastLog2(v).to_bits() as u64));
        corr.case(&format!("greedy log2 {}", exc), &format!("{} {}", a, b));
        rep.count("corr.log2");
    }
    let per_task: usize = if thorough { 160 } else { 14 };
    let seed = args.seed;
    let exc2 = exc.clone();
    let res = par_tasks(32, move |t| {
        let mut rng = Rng::new(seed ^ 0x67eed1 ^ ((t as u64) << 20));
        let mut lines = Vec::new();
        let mut r = Report::default();
        for i in 0..per_task {
            let kind = match i % 7 { 0 | 1 => "lit", 2 | 3 => "cmd", 4 => "mixed", 5 => "tiny", _ => "mixed" };
            let kind = if i == 8 && t % 4 == 0 { "types" } else if i == 9 && t == 0 { "types256" } else { kind };
            let mut c = gen_case(&mut rng, kind);
            if i % 7 == 6 { c = mutate(&mut rng, c); }
            run_case(&c, &exc2, &mut r, &mut lines);
        }
        (lines, r)
    });
    for (lines, r) in res { for (o, a) in lines { corr.case(&o, &a); } rep.merge(r); }
    let _ = std::panic::take_hook();
    corr.finish();
    rep.write(&args.out);
}
